"""C14 helper: generator of variant-identification configurations, simulated ECUs and the
independent reference matcher.

Nothing in this module imports odxtools.  A *configuration* is a JSON-able dict

    {"mode": "ecu" | "base",
     "gnr": bool,                         # base variant(s) carry a GLOBAL-NEG-RESPONSE
     "services": [svc, ...],              # identification services of the base variant(s)
     "variants": [{"name", "kind": "EV"|"BV", "patterns": [[mp, ...], ...],
                   "local": [svc, ...]}], # local = services defined in the ECU variant itself
     "candidates": [variant name, ...]}   # the list handed to VariantMatcher, in this order

    svc = {"name", "req": hex, "pos": layout, "neg": layout | None, "answers": [hex, hex, hex]}
    mp  = {"exp": str, "svc": name, "path": "a.b.c", "snref": bool, "phys": None|True|False,
           "ty": leaf type, "where": "pos"|"neg"|"gnr", "field": bool}

A *layout* is a list of byte aligned, sequential fields

    {"n", "k": "const", "v": int, "len": bytes}
    {"n", "k": "echo", "pos": request byte, "len": bytes}      MATCHING-REQUEST-PARAM
    {"n", "k": "leaf", "ty": one of LEAF}
    {"n", "k": "struct", "sub": layout}
    {"n", "k": "eop", "sub": layout}                             END-OF-PDU-FIELD (last)
    {"n", "k": "sfield", "count": n, "sub": layout}              STATIC-FIELD

An *ECU* is a table {"<request hex>/<P|F>": response hex}; requests that are not in the table
are answered 7F <sid> 11.
"""
from __future__ import annotations

import itertools
import struct
from typing import Any, Dict, Iterable, List, Optional, Tuple
from xml.sax.saxutils import escape, quoteattr

from . import odxgen as g

J = Dict[str, Any]

# ---------------------------------------------------------------------------
# leaf types: name -> (byte length, physical alphabet)


def _f32(x: float) -> float:
    return struct.unpack(">f", struct.pack(">f", x))[0]


class Dtc(int):
    """a trouble code as decoded through a DTC-DOP (compared by its hex spelling)"""


DTCS = [0x012300, 0xA001, 0x7, 0x123456, 0xABCDEF]
TT = {1: "alpha", 2: "Alpha", 3: "beta"}
LEAF: Dict[str, Tuple[int, List[Any]]] = {
    "u8": (1, [0, 1, 2, 16, 17, 18, 34, 49, 98]),  # 0: falsy but a value like any other
    "i8": (1, [0, -1, 1, -2, 2]),
    "u16": (2, [0, 1, 256, 4660, 61712]),
    "asc2": (2, ["AB", "ab", "Ab", "A1", "10"]),
    "bf2": (2, [b"\x0a\x1b", b"\x0a\x1c", b"\x00\xff", b"\xab\xcd"]),
    "lin": (1, [0.0, 0.5, 1.0, 1.5, 2.0]),
    "tt": (1, ["alpha", "Alpha", "beta"]),
    "f32": (4, [0.0, 1.5, -2.25, _f32(0.1), 1024.0]),
    "dtc3": (3, [Dtc(c) for c in DTCS]),
}
NRCS = [0x10, 0x11, 0x12, 0x22, 0x31]
INVALID = ("<invalid>",)


def enc_leaf(ty: str, v: Any) -> bytes:
    if ty == "u8":
        return bytes([v])
    if ty == "i8":
        return bytes([v & 0xFF])
    if ty == "u16":
        return v.to_bytes(2, "big")
    if ty == "asc2":
        return v.encode("ascii")
    if ty == "bf2":
        return bytes(v)
    if ty == "lin":
        return bytes([int(round(v * 2))])
    if ty == "tt":
        return bytes([k for k, t in TT.items() if t == v][:1] or [0])
    if ty == "f32":
        return struct.pack(">f", v)
    if ty == "dtc3":
        return int(v).to_bytes(3, "big")
    raise ValueError(ty)


def dec_leaf(ty: str, b: bytes) -> Any:
    if ty == "u8":
        return b[0]
    if ty == "i8":
        return b[0] - 256 if b[0] >= 128 else b[0]
    if ty == "u16":
        return int.from_bytes(b, "big")
    if ty == "asc2":
        if any(x >= 0x80 for x in b):
            return INVALID
        return b.decode("ascii")
    if ty == "bf2":
        return bytes(b)
    if ty == "lin":
        return b[0] * 0.5
    if ty == "tt":
        return TT.get(b[0], INVALID)
    if ty == "f32":
        return struct.unpack(">f", b)[0]
    if ty == "dtc3":
        c = int.from_bytes(b, "big")
        return Dtc(c) if c in DTCS else INVALID
    raise ValueError(ty)


# ---------------------------------------------------------------------------
# layouts: value generation, encoding, reference decoding


def gen_values(layout: List[J], r: Any) -> J:
    out: J = {}
    for f in layout:
        k = f["k"]
        if k == "leaf":
            out[f["n"]] = r.choice(f.get("alpha") or LEAF[f["ty"]][1])
        elif k == "struct":
            out[f["n"]] = gen_values(f["sub"], r)
        elif k == "eop":
            out[f["n"]] = [gen_values(f["sub"], r) for _ in range(r.choice([0, 1, 1, 2, 2, 3]))]
        elif k == "sfield":
            out[f["n"]] = [gen_values(f["sub"], r) for _ in range(f["count"])]
    return out


def encode(layout: List[J], vals: J, req: bytes) -> bytes:
    b = b""
    for f in layout:
        k = f["k"]
        if k == "const":
            b += int(f["v"]).to_bytes(f["len"], "big")
        elif k == "echo":
            b += req[f["pos"]:f["pos"] + f["len"]]
        elif k == "leaf":
            b += enc_leaf(f["ty"], vals[f["n"]])
        elif k == "struct":
            b += encode(f["sub"], vals[f["n"]], req)
        else:
            for item in vals[f["n"]]:
                b += encode(f["sub"], item, req)
    return b


class Reading:
    """One way of reading the clauses the property leaves open (all are accepted)."""

    FLAGS = ("lex_int", "lex_hex", "trailing_ok", "partial_ok", "echo_strict", "poison",
             "poison_text")

    def __init__(self, lex_int: bool = False, lex_hex: bool = False, trailing_ok: bool = False,
                 partial_ok: bool = False, echo_strict: bool = True, poison: bool = True,
                 poison_text: bool = True, consts: bool = True) -> None:
        self.lex_int = lex_int  # integers compared as written ('01' != 1) instead of by value
        self.lex_hex = lex_hex  # byte fields compared with the upper-case hex spelling only
        self.trailing_ok = trailing_ok  # surplus bytes after a complete structure are ignored
        self.partial_ok = partial_ok  # an incomplete last item of an END-OF-PDU field is ignored
        self.echo_strict = echo_strict  # a wrong MATCHING-REQUEST echo makes a response undecodable
        self.poison = poison  # an undecodable leaf makes the whole response undecodable
        # ... separately for bytes >= 0x80 in an ASCII string (an 8-bit code page may be in use)
        self.poison_text = poison_text
        self.consts = consts  # False = defect model: CODED-CONST mismatches are ignored

    def replace(self, **kw: bool) -> "Reading":
        d = {k: getattr(self, k) for k in self.FLAGS + ("consts",)}
        d.update(kw)
        return Reading(**d)


class _Fail(Exception):
    pass


def _dec(layout: List[J], data: bytes, pos: int, req: bytes, rd: Reading) -> Tuple[J, int]:
    out: J = {}
    for f in layout:
        k = f["k"]
        if k in ("const", "echo"):
            n = f["len"]
            if pos + n > len(data):
                raise _Fail()
            chunk = data[pos:pos + n]
            if k == "const":
                if rd.consts and chunk != int(f["v"]).to_bytes(n, "big"):
                    raise _Fail()
            elif rd.echo_strict and chunk != req[f["pos"]:f["pos"] + n]:
                raise _Fail()
            pos += n
        elif k == "leaf":
            n = LEAF[f["ty"]][0]
            if pos + n > len(data):
                raise _Fail()
            v = dec_leaf(f["ty"], data[pos:pos + n])
            if v is INVALID and (rd.poison_text if f["ty"] == "asc2" else rd.poison):
                raise _Fail()
            out[f["n"]] = v
            pos += n
        elif k == "struct":
            out[f["n"]], pos = _dec(f["sub"], data, pos, req, rd)
        elif k == "sfield":
            items = []
            for _ in range(f["count"]):
                it, pos = _dec(f["sub"], data, pos, req, rd)
                items.append(it)
            out[f["n"]] = items
        elif k == "eop":
            items = []
            while pos < len(data):
                try:
                    it, pos = _dec(f["sub"], data, pos, req, rd)
                except _Fail:
                    if rd.partial_ok and _item_too_short(f["sub"], len(data) - pos):
                        pos = len(data)
                        break
                    raise
                items.append(it)
            out[f["n"]] = items
    return out, pos


def static_len(layout: List[J]) -> int:
    n = 0
    for f in layout:
        k = f["k"]
        if k in ("const", "echo"):
            n += f["len"]
        elif k == "leaf":
            n += LEAF[f["ty"]][0]
        elif k == "struct":
            n += static_len(f["sub"])
        elif k == "sfield":
            n += f["count"] * static_len(f["sub"])
    return n


def _item_too_short(layout: List[J], remaining: int) -> bool:
    return remaining < static_len(layout)


def ref_decode(layout: List[J], data: bytes, req: bytes, rd: Reading) -> Optional[J]:
    """Decode `data` according to `layout`; None = this response structure does not apply."""
    try:
        out, pos = _dec(layout, data, 0, req, rd)
    except _Fail:
        return None
    if pos < len(data) and not rd.trailing_ok:
        return None
    return out


def _is_canonical_int(s: str) -> bool:
    try:
        return str(int(s)) == s
    except ValueError:
        return False


def value_matches(expected: str, v: Any, rd: Reading) -> bool:
    if v is INVALID or isinstance(v, (dict, list)):
        return False
    if isinstance(v, Dtc):
        # the code in hexadecimal; digits in either case (open clause, like byte fields)
        if rd.lex_hex:
            return expected == hex(v)
        return expected.upper() == hex(v).upper()
    if isinstance(v, bool):
        return expected == str(v)
    if isinstance(v, float):
        try:
            return abs(float(expected) - v) < 1e-8
        except ValueError:
            return False
    if isinstance(v, int):
        if rd.lex_int:
            return expected == str(v)
        try:
            return int(expected, 10) == v
        except ValueError:
            try:
                return float(expected) == v
            except ValueError:
                return False
    if isinstance(v, (bytes, bytearray)):
        if rd.lex_hex:
            return expected == bytes(v).hex().upper()
        return expected.upper() == bytes(v).hex().upper()
    return expected == v


def path_matches(decoded: Any, chunks: List[str], expected: str, rd: Reading) -> bool:
    if not chunks:
        return value_matches(expected, decoded, rd)
    if not isinstance(decoded, dict):
        return False
    if chunks[0] not in decoded:
        return False
    sub = decoded[chunks[0]]
    if isinstance(sub, list):  # a field: any item may match
        return any(path_matches(x, chunks[1:], expected, rd) for x in sub)
    return path_matches(sub, chunks[1:], expected, rd)


GNR_LAYOUT: List[J] = [{"n": "sid", "k": "const", "v": 0x7F, "len": 1},
                       {"n": "rq", "k": "leaf", "ty": "u8"},
                       {"n": "gnrc", "k": "leaf", "ty": "u8"}]


def ecu_answer(ecu: J, req: bytes, phys: bool) -> bytes:
    key = req.hex() + ("/P" if phys else "/F")
    if key in ecu:
        return bytes.fromhex(ecu[key])
    return bytes([0x7F, req[0] if req else 0, 0x11])


def effective_services(cfg: J, variant: J) -> Dict[str, J]:
    svcs = {s["name"]: s for s in cfg["services"]}
    for s in variant.get("local", []):
        svcs[s["name"]] = s
    return svcs


def variant_by_name(cfg: J) -> Dict[str, J]:
    return {v["name"]: v for v in cfg["variants"]}


def mp_phys(cfg: J, mp: J) -> bool:
    if cfg["mode"] == "ecu":
        return True
    return mp.get("phys") in (None, True)


def ref_param(cfg: J, variant: J, mp: J, ecu: J, rd: Reading) -> bool:
    svc = effective_services(cfg, variant)[mp["svc"]]
    req = bytes.fromhex(svc["req"])
    resp = ecu_answer(ecu, req, mp_phys(cfg, mp))
    layouts = [svc["pos"]]
    if svc.get("neg"):
        layouts.append(svc["neg"])
    if cfg.get("gnr"):
        layouts.append(GNR_LAYOUT)
    chunks = mp["path"].split(".")
    for lay in layouts:
        d = ref_decode(lay, resp, req, rd)
        if d is not None and path_matches(d, chunks, mp["exp"], rd):
            return True
    return False


def ref_outcome(cfg: J, ecu: J, rd: Reading) -> Optional[str]:
    """First candidate (list order) with a pattern all of whose parameters match."""
    byname = variant_by_name(cfg)
    for name in cfg["candidates"]:
        v = byname[name]
        for pat in v["patterns"]:
            if pat and all(ref_param(cfg, v, mp, ecu, rd) for mp in pat):
                return name
    return None


def ident_requests(cfg: J) -> set:
    """(use_physical_addressing | None, request bytes) of every matching parameter of a candidate."""
    byname = variant_by_name(cfg)
    res = set()
    for name in cfg["candidates"]:
        v = byname[name]
        svcs = effective_services(cfg, v)
        for pat in v["patterns"]:
            for mp in pat:
                req = bytes.fromhex(svcs[mp["svc"]]["req"])
                res.add((None if cfg["mode"] == "ecu" else mp_phys(cfg, mp), req))
    return res


# ---------------------------------------------------------------------------
# random configurations

SHAPES = ["plain1", "plain2", "struct", "nested", "eop", "sfield", "struct_eop"]
FIXED_TYPES = list(LEAF.keys())


def _leaf(r: Any, name: str) -> J:
    ty = r.choice(FIXED_TYPES)
    full = LEAF[ty][1]
    alpha = r.sample(full, min(len(full), 3))
    return {"n": name, "k": "leaf", "ty": ty, "alpha": alpha}


def gen_body(r: Any, shape: str) -> List[J]:
    if shape == "plain1":
        return [_leaf(r, "p")]
    if shape == "plain2":
        return [_leaf(r, "p"), _leaf(r, "q")]
    if shape == "struct":
        return [{"n": "st", "k": "struct", "sub": [_leaf(r, "a"), _leaf(r, "b")]}]
    if shape == "nested":
        return [_leaf(r, "p"),
                {"n": "st", "k": "struct",
                 "sub": [_leaf(r, "a"), {"n": "sub", "k": "struct", "sub": [_leaf(r, "c")]}]}]
    if shape == "eop":
        sub = [_leaf(r, "a")] + ([_leaf(r, "b")] if r.random() < 0.5 else [])
        return ([_leaf(r, "p")] if r.random() < 0.5 else []) + [{"n": "items", "k": "eop", "sub": sub}]
    if shape == "sfield":
        return [{"n": "sf", "k": "sfield", "count": r.choice([1, 2, 3]), "sub": [_leaf(r, "a")]},
                _leaf(r, "q")]
    if shape == "struct_eop":
        return [{"n": "st", "k": "struct",
                 "sub": [_leaf(r, "a"), {"n": "items", "k": "eop", "sub": [_leaf(r, "c")]}]}]
    raise ValueError(shape)


def leaf_paths(layout: List[J], prefix: str = "", infield: bool = False) -> List[Tuple[str, str, bool]]:
    res = []
    for f in layout:
        k = f["k"]
        if k == "leaf":
            res.append((prefix + f["n"], f["ty"], infield))
        elif k == "struct":
            res += leaf_paths(f["sub"], prefix + f["n"] + ".", infield)
        elif k in ("eop", "sfield"):
            res += leaf_paths(f["sub"], prefix + f["n"] + ".", True)
    return res


def values_at(vals: Any, chunks: List[str]) -> List[Any]:
    if not chunks:
        return [vals]
    if isinstance(vals, list):
        return [x for it in vals for x in values_at(it, chunks)]
    if isinstance(vals, dict) and chunks[0] in vals:
        return values_at(vals[chunks[0]], chunks[1:])
    return []


REQ_KINDS = ["did", "did", "sub", "sub-noecho"]


def gen_service(r: Any, name: str, req_kind: str, ident: int, shape: str) -> J:
    body = gen_body(r, shape)
    if req_kind == "did":
        req = bytes([0x22, 0xF1, ident])
        pos = [{"n": "sid", "k": "const", "v": 0x62, "len": 1},
               {"n": "did", "k": "echo", "pos": 1, "len": 2}] + body
        rsid = 0x22
    else:
        req = bytes([0x1A, ident])
        pos = [{"n": "sid", "k": "const", "v": 0x5A, "len": 1}]
        if req_kind == "sub":
            pos.append({"n": "idopt", "k": "echo", "pos": 1, "len": 1})
        pos += body
        rsid = 0x1A
    neg = None
    if r.random() < 0.7:
        neg = [{"n": "sid", "k": "const", "v": 0x7F, "len": 1},
               {"n": "rsid", "k": "const", "v": rsid, "len": 1},
               {"n": "nrc", "k": "leaf", "ty": "u8"}]
    answers, answer_vals = [], []
    for _ in range(40):
        v = gen_values(pos, r)
        b = encode(pos, v, req).hex()
        if b not in answers:
            answers.append(b)
            answer_vals.append(v)
        if len(answers) == 3:
            break
    while len(answers) < 3:  # (tiny alphabets) repeat the last one
        answers.append(answers[-1])
        answer_vals.append(answer_vals[-1])
    return {"name": name, "req": req.hex(), "kind": req_kind, "shape": shape, "pos": pos,
            "neg": neg, "answers": answers, "answer_vals": _vals_json(answer_vals)}


def _vals_json(v: Any) -> Any:
    if isinstance(v, Dtc):
        return "dtc:" + hex(v)
    if isinstance(v, (bytes, bytearray)):
        return "0x" + bytes(v).hex()
    if isinstance(v, dict):
        return {k: _vals_json(x) for k, x in v.items()}
    if isinstance(v, list):
        return [_vals_json(x) for x in v]
    return v


def expected_for(r: Any, ty: str, v: Any, style: str) -> str:
    """Textual EXPECTED-VALUE for the physical value v."""
    if isinstance(v, float):
        if style == "alt":
            return r.choice(["%.3f" % v if abs(v * 1000 - round(v * 1000)) < 1e-9 else repr(v),
                             repr(v + 1e-10), "%.12e" % v])
        if style == "near":
            return repr(v + r.choice([1e-6, -1e-6, 0.5]))
        return repr(v) if ty != "f32" or v != _f32(0.1) else r.choice([repr(v), "0.1"])
    if isinstance(v, Dtc):
        if style == "alt":  # upper-case digits: open clause
            return "0x" + hex(v)[2:].upper()
        if style == "near":  # another code, or the code as a decimal number
            return r.choice([hex(v ^ 1), str(int(v)), hex(v + 0x100)])
        return hex(v)
    if isinstance(v, int):
        if style == "alt":  # non-canonical spelling: open clause, both readings accepted
            return ("0" + str(v)) if v >= 0 else ("-0" + str(-v))
        if style == "near":
            return str(v + r.choice([1, -1, 10]))
        return str(v)
    if isinstance(v, (bytes, bytearray)):
        if style == "alt":  # lower-case hex: open clause
            return bytes(v).hex().lower()
        if style == "near":
            # one bit off, or the same NUMBER spelled with other bytes (leading zero bytes dropped
            # or added, a radix prefix): a byte field is compared by its hex digits, not by value
            h = bytes(v).hex().upper()
            return r.choice([bytes([v[0], v[1] ^ 1]).hex().upper(), "00" + h, "0x" + h,
                             h[2:] if h.startswith("00") else h[1:] if h.startswith("0") else "0" + h])
        return bytes(v).hex().upper()
    if style == "near":
        return r.choice([v.swapcase(), v.upper(), v.lower(), v + "x"])
    return v


def gen_mp(r: Any, cfg: J, variant: J, base_mode: bool) -> J:
    svcs = effective_services(cfg, variant)
    svc = svcs[r.choice(sorted(svcs))]
    targets: List[Tuple[str, str, bool, str]] = [(p, t, f, "pos") for p, t, f in leaf_paths(svc["pos"])]
    if svc.get("neg"):
        targets.append(("nrc", "u8", False, "neg"))
    if cfg.get("gnr"):
        targets.append(("gnrc", "u8", False, "gnr"))
        targets.append(("rq", "u8", False, "gnr"))
    # positive targets are preferred
    weights = [6 if w == "pos" else 1 for _, _, _, w in targets]
    path, ty, infield, where = r.choices(targets, weights)[0]
    chunks = path.split(".")
    if where == "pos":
        seen: List[Any] = []
        for av_hex in svc["answers"]:
            d = ref_decode(svc["pos"], bytes.fromhex(av_hex), bytes.fromhex(svc["req"]), Reading())
            for x in values_at(d, chunks):
                if x not in seen:
                    seen.append(x)
        pool = seen or LEAF[ty][1]
    elif path == "rq":
        pool = [bytes.fromhex(svc["req"])[0]]
    else:
        pool = NRCS
    x = r.random()
    if x < 0.72:
        style = "canon"
    elif x < 0.80:
        style = "alt"
    elif x < 0.92:
        style = "near"
    else:
        style = "other"
    if style == "other":
        v = r.choice(LEAF[ty][1])
        exp = expected_for(r, ty, v, "canon")
    else:
        v = r.choice(pool)
        exp = expected_for(r, ty, v, style)
    mp: J = {"exp": exp, "svc": svc["name"], "path": path,
             "snref": len(chunks) == 1 and r.random() < 0.7, "ty": ty, "where": where,
             "field": infield, "style": style}
    if base_mode:
        mp["phys"] = r.choice([None, True, True, False, False])
    return mp


def gen_config(r: Any, mode: Optional[str] = None, max_services: int = 3) -> J:
    mode = mode or r.choice(["ecu", "ecu", "base"])
    nsvc = r.choice([1, 2, 2, 3, 3]) if max_services <= 3 else r.choice([4, 4, 5])
    idents = r.sample([0x10, 0x11, 0x12, 0x86, 0x87, 0x90, 0x22], nsvc + 2)
    cfg: J = {"mode": mode, "gnr": r.random() < 0.3, "services": [], "variants": [],
              "candidates": []}
    for i in range(nsvc):
        cfg["services"].append(
            gen_service(r, f"ident{i}", r.choice(REQ_KINDS), idents[i], r.choice(SHAPES)))
    if mode == "ecu":
        nvar = r.choice([0, 1, 2, 2, 3, 3, 4, 4])
        for i in range(nvar):
            v: J = {"name": f"EV{i}", "kind": "EV", "patterns": [], "local": []}
            x = r.random()
            if x < 0.15:  # a service of its own
                v["local"].append(gen_service(r, f"identL{i}", r.choice(REQ_KINDS), idents[nsvc],
                                              r.choice(SHAPES)))
            elif x < 0.25:  # overrides an inherited service (same short name, other layout)
                o = r.choice(cfg["services"])
                same_req = r.random() < 0.5
                s = gen_service(r, o["name"], o["kind"] if same_req else r.choice(REQ_KINDS),
                                int(o["req"][-2:], 16) if same_req else idents[nsvc + 1],
                                r.choice(SHAPES))
                v["local"].append(s)
            cfg["variants"].append(v)
        for v in cfg["variants"]:
            for _ in range(r.choice([0, 1, 1, 2, 2, 3])):
                v["patterns"].append([gen_mp(r, cfg, v, False) for _ in range(r.choice([1, 1, 2, 2, 3]))])
    else:
        nvar = r.choice([1, 2, 2, 3, 3, 4])
        for i in range(nvar):
            v = {"name": f"BV{i}", "kind": "BV", "patterns": [], "local": []}
            cfg["variants"].append(v)
            if r.random() < 0.85:
                v["patterns"].append([gen_mp(r, cfg, v, True) for _ in range(r.choice([1, 2, 2, 3, 3]))])
    names = [v["name"] for v in cfg["variants"]]
    x = r.random()
    if x < 0.5:
        cand = list(names)
    elif x < 0.85:
        cand = list(names)
        r.shuffle(cand)
    else:
        cand = [n for n in names if r.random() < 0.7]
        r.shuffle(cand)
    cfg["candidates"] = cand
    return cfg


# ---------------------------------------------------------------------------
# ECUs


def config_requests(cfg: J) -> List[Tuple[str, List[str], Optional[J]]]:
    """distinct request -> (req hex, positive answer alphabet, one service using it)"""
    seen: Dict[str, Tuple[str, List[str], Optional[J]]] = {}
    all_svcs = list(cfg["services"]) + [s for v in cfg["variants"] for s in v.get("local", [])]
    for s in all_svcs:
        if s["req"] not in seen:
            seen[s["req"]] = (s["req"], list(s["answers"]), s)
        else:  # an override sharing the request: the ECU may answer in either layout
            req, ans, s0 = seen[s["req"]]
            seen[s["req"]] = (req, (ans + list(s["answers"]))[:], s0)
    return list(seen.values())


def used_requests(cfg: J) -> List[Tuple[str, bool]]:
    """(req hex, phys) pairs that a candidate's matching parameters may ask for, sorted."""
    res = set()
    byname = variant_by_name(cfg)
    for name in cfg["candidates"]:
        v = byname[name]
        svcs = effective_services(cfg, v)
        for pat in v["patterns"]:
            for mp in pat:
                res.add((svcs[mp["svc"]]["req"], mp_phys(cfg, mp)))
    return sorted(res)


GARBAGE = ["wrong-sid", "truncated", "trailing", "wrong-echo", "invalid-leaf", "neg", "neg-unmodelled",
           "one-byte"]


def garbage_answer(r: Any, kind: str, svc: J) -> bytes:
    req = bytes.fromhex(svc["req"])
    good = bytes.fromhex(r.choice(svc["answers"]))
    if kind == "wrong-sid":
        return bytes([r.choice([0x00, 0x51, 0x63, 0xFF])]) + good[1:]
    if kind == "truncated":
        return good[:r.randrange(1, len(good))] if len(good) > 1 else good
    if kind == "trailing":
        return good + bytes([r.choice([0x00, 0xAA, 0x01])])
    if kind == "wrong-echo":
        return good[:1] + bytes([good[1] ^ 0x01]) + good[2:] if len(good) > 1 else good
    if kind == "invalid-leaf":
        # overwrite the first tt / asc2 leaf found at a static offset with an invalid code
        off = 0
        for f in svc["pos"]:
            if f["k"] in ("const", "echo"):
                off += f["len"]
            elif f["k"] == "leaf":
                if f["ty"] == "tt" and off < len(good):
                    return good[:off] + bytes([0x09]) + good[off + 1:]
                if f["ty"] == "asc2" and off < len(good):
                    return good[:off] + bytes([0xE9]) + good[off + 1:]
                off += LEAF[f["ty"]][0]
            else:
                break
        return good[:-1] + bytes([0xFF])
    if kind == "neg":
        return bytes([0x7F, req[0], r.choice(NRCS)])
    if kind == "neg-unmodelled":
        return bytes([0x7F, req[0], r.choice([0x33, 0x78, 0x7F])])
    return good[:1]


def enumerate_ecus(cfg: J, r: Any, n_random: int, exhaustive_limit: int = 81
                   ) -> Iterable[Tuple[str, J]]:
    """Yield (class, ecu table).  Exhaustive over the 3-answer alphabet of every request a
    candidate may issue if that is at most `exhaustive_limit` ECUs, random otherwise; plus
    `n_random` ECUs that also answer negatively / with garbage."""
    reqs = {q: (ans, s) for q, ans, s in config_requests(cfg)}
    used = used_requests(cfg)
    base = cfg["mode"] == "base"
    # class 1: addressing-blind ECU
    ureq = sorted({q for q, _ in used})
    total = 1
    for q in ureq:
        total *= len(reqs[q][0])
    if total <= exhaustive_limit:
        combos: Iterable[Tuple[str, ...]] = itertools.product(*[reqs[q][0] for q in ureq])
        cls = "blind/exhaustive"
    else:
        combos = [tuple(r.choice(reqs[q][0]) for q in ureq) for _ in range(exhaustive_limit)]
        cls = "blind/random"
    for combo in combos:
        ecu: J = {}
        for q, a in zip(ureq, combo):
            ecu[q + "/P"] = a
            ecu[q + "/F"] = a
        yield cls, ecu
    # class 2: ECU answering differently to physical and functional requests
    if base and used:
        keys = [q + ("/P" if p else "/F") for q, p in used]
        total = 1
        for q, _ in used:
            total *= len(reqs[q][0])
        if total <= exhaustive_limit:
            for combo in itertools.product(*[reqs[q][0] for q, _ in used]):
                yield "addr/exhaustive", dict(zip(keys, combo))
        else:
            for _ in range(exhaustive_limit // 2):
                yield "addr/random", {k: r.choice(reqs[q][0]) for k, (q, _) in zip(keys, used)}
    # class 3: negative responses and garbage
    for _ in range(n_random if used else 0):
        ecu = {}
        for q in ureq:
            ans, svc = reqs[q]
            for sfx in ("/P", "/F"):
                if sfx == "/F" and not (base and r.random() < 0.5):
                    ecu[q + "/F"] = ecu[q + "/P"]
                    continue
                if r.random() < 0.5:
                    ecu[q + sfx] = r.choice(ans)
                else:
                    ecu[q + sfx] = garbage_answer(r, r.choice(GARBAGE), svc).hex()
        yield "faulty", ecu


# ---------------------------------------------------------------------------
# ODX emission

_DOPS = None


def dops() -> List[J]:
    lin = {"cat": "LINEAR", "i2p": {"scales": [{"num": [0, 0.5], "den": [1]}]}}
    tt = {"cat": "TEXTTABLE", "i2p": {"scales": [
        {"lo": (k, "CLOSED"), "hi": (k, "CLOSED"), "const": {"vt": t}} for k, t in sorted(TT.items())]}}
    return [
        g.dop("u8", g.dct_std("A_UINT32", 8)),
        g.dop("i8", g.dct_std("A_INT32", 8)),
        g.dop("u16", g.dct_std("A_UINT32", 16)),
        g.dop("asc2", g.dct_std("A_ASCIISTRING", 16), ptype="A_UNICODE2STRING"),
        g.dop("bf2", g.dct_std("A_BYTEFIELD", 16)),
        g.dop("lin", g.dct_std("A_UINT32", 8), ptype="A_FLOAT64", compu=lin),
        g.dop("tt", g.dct_std("A_UINT32", 8), ptype="A_UNICODE2STRING", compu=tt),
        g.dop("f32", g.dct_std("A_FLOAT32", 32)),
        {"t": "DTCDOP", "name": "dtc3", "dct": g.dct_std("A_UINT32", 24), "ptype": "A_UINT32",
         "compu": g.compu_identical(),
         "dtcs": [{"name": f"dtc_{c:06x}", "code": c} for c in DTCS]},
    ]


def _emit_fields(layout: List[J], prefix: str, dobjs: List[J]) -> List[J]:
    """layout -> odxgen params; composite data objects are appended to dobjs."""
    params: List[J] = []
    for f in layout:
        k = f["k"]
        if k == "const":
            params.append(g.p_const(f["n"], g.dct_std("A_UINT32", 8 * f["len"]), f["v"]))
        elif k == "echo":
            params.append({"p": "MATCHING-REQUEST-PARAM", "name": f["n"], "byte": None,
                           "req_pos": f["pos"], "len": f["len"]})
        elif k == "leaf":
            params.append(g.p_value(f["n"], f["ty"]))
        else:
            sname = f"{prefix}_{f['n']}_S"
            sub = _emit_fields(f["sub"], f"{prefix}_{f['n']}", dobjs)
            dobjs.append({"t": "STRUCT", "name": sname, "params": sub})
            if k == "struct":
                params.append(g.p_value(f["n"], sname))
            elif k == "eop":
                fname = f"{prefix}_{f['n']}_F"
                dobjs.append({"t": "EOPFIELD", "name": fname, "struct": sname})
                params.append(g.p_value(f["n"], fname))
            elif k == "sfield":
                fname = f"{prefix}_{f['n']}_F"
                dobjs.append({"t": "SFIELD", "name": fname, "struct": sname, "n": f["count"],
                              "item_size": static_len(f["sub"])})
                params.append(g.p_value(f["n"], fname))
    return params


def _emit_services(svcs: List[J], layer: J) -> None:
    for s in svcs:
        nm = s["name"]
        req = bytes.fromhex(s["req"])
        rq_params = [g.u8const("sid", req[0])]
        if len(req) == 3:
            rq_params.append(g.p_const("did", g.dct_std("A_UINT32", 16), int.from_bytes(req[1:], "big")))
        else:
            rq_params.append(g.u8const("idopt", req[1]))
        layer["requests"].append({"name": "rq_" + nm, "params": rq_params})
        layer["pos"].append({"name": "pr_" + nm, "params": _emit_fields(s["pos"], nm, layer["dobjs"])})
        svc = {"name": nm, "request": "rq_" + nm, "pos": ["pr_" + nm], "neg": []}
        if s.get("neg"):
            layer["neg"].append({"name": "nr_" + nm,
                                 "params": _emit_fields(s["neg"], nm + "_n", layer["dobjs"])})
            svc["neg"] = ["nr_" + nm]
        layer["services"].append(svc)


def _mp_xml(mp: J, base: bool) -> str:
    tag = "MATCHING-BASE-VARIANT-PARAMETER" if base else "MATCHING-PARAMETER"
    x = f"<{tag}><EXPECTED-VALUE>{escape(mp['exp'])}</EXPECTED-VALUE>"
    if base and mp.get("phys") is not None:
        x += "<USE-PHYSICAL-ADDRESSING>" + ("true" if mp["phys"] else "false") + \
            "</USE-PHYSICAL-ADDRESSING>"
    x += f"<DIAG-COMM-SNREF SHORT-NAME={quoteattr(mp['svc'])}/>"
    if mp["snref"]:
        x += f"<OUT-PARAM-IF-SNREF SHORT-NAME={quoteattr(mp['path'])}/>"
    else:
        x += f"<OUT-PARAM-IF-SNPATHREF SHORT-NAME-PATH={quoteattr(mp['path'])}/>"
    return x + f"</{tag}>"


def emit(cfg: J) -> str:
    """configuration -> ODX XML (one DIAG-LAYER-CONTAINER)."""
    layers: List[J] = []

    def new_layer(kind: str, name: str) -> J:
        return {"kind": kind, "name": name, "dobjs": dops(), "requests": [], "pos": [], "neg": [],
                "gneg": [], "services": []}

    if cfg["mode"] == "ecu":
        bv = new_layer("BASE-VARIANT", "BV")
        _emit_services(cfg["services"], bv)
        if cfg.get("gnr"):
            bv["gneg"].append({"name": "gnr", "params": _emit_fields(GNR_LAYOUT, "gnr", bv["dobjs"])})
        layers.append(bv)
        for v in cfg["variants"]:
            ev = new_layer("ECU-VARIANT", v["name"])
            if v.get("local"):
                _emit_services(v["local"], ev)
            else:
                ev["dobjs"] = []
            tail = ""
            if v["patterns"]:
                tail += "<ECU-VARIANT-PATTERNS>" + "".join(
                    "<ECU-VARIANT-PATTERN><MATCHING-PARAMETERS>" +
                    "".join(_mp_xml(mp, False) for mp in pat) +
                    "</MATCHING-PARAMETERS></ECU-VARIANT-PATTERN>" for pat in v["patterns"]) + \
                    "</ECU-VARIANT-PATTERNS>"
            tail += '<PARENT-REFS><PARENT-REF ID-REF="BV" xsi:type="BASE-VARIANT-REF"/></PARENT-REFS>'
            ev["xml_tail"] = tail
            layers.append(ev)
    else:
        for v in cfg["variants"]:
            bv = new_layer("BASE-VARIANT", v["name"])
            _emit_services(cfg["services"], bv)
            if cfg.get("gnr"):
                bv["gneg"].append({"name": "gnr",
                                   "params": _emit_fields(GNR_LAYOUT, "gnr", bv["dobjs"])})
            if v["patterns"]:
                bv["xml_tail"] = "<BASE-VARIANT-PATTERN><MATCHING-BASE-VARIANT-PARAMETERS>" + \
                    "".join(_mp_xml(mp, True) for mp in v["patterns"][0]) + \
                    "</MATCHING-BASE-VARIANT-PARAMETERS></BASE-VARIANT-PATTERN>"
            layers.append(bv)
    return g.emit_container({"name": "c14", "layers": layers})


def features(cfg: J) -> List[str]:
    """Categorical features of a configuration for the coverage matrix."""
    res = ["mode:" + cfg["mode"], "candidates:%d" % len(cfg["candidates"]),
           "services:%d" % len(cfg["services"])]
    byname = variant_by_name(cfg)
    used_svcs = set()
    for name in cfg["candidates"]:
        v = byname[name]
        res.append("patterns-per-variant:%d" % len(v["patterns"]))
        svcs = effective_services(cfg, v)
        for pat in v["patterns"]:
            res.append("params-per-pattern:%d" % len(pat))
            for mp in pat:
                res.append("ref:" + ("snref" if mp["snref"] else "snpathref"))
                res.append("target-type:" + mp["ty"])
                res.append("target-in:" + mp["where"])
                res.append("expected-style:" + mp["style"])
                res.append("service-shape:" + svcs[mp["svc"]]["shape"])
                res.append("request-kind:" + svcs[mp["svc"]]["kind"])
                if mp["field"]:
                    res.append("target-in-field")
                if "." in mp["path"]:
                    res.append("path-depth:%d" % len(mp["path"].split(".")))
                if cfg["mode"] == "base":
                    res.append("use-phys:" + str(mp.get("phys")))
                if any(s["name"] == mp["svc"] for s in v.get("local", [])):
                    inherited = any(s["name"] == mp["svc"] for s in cfg["services"])
                    res.append("service:" + ("overriding" if inherited else "local"))
                else:
                    res.append("service:base")
                used_svcs.add((name, mp["svc"]))
    per_svc: Dict[str, set] = {}
    for name, s in used_svcs:
        per_svc.setdefault(s, set()).add(name)
    if any(len(x) > 1 for x in per_svc.values()):
        res.append("service-shared-by-variants")
    if len(per_svc) > 1:
        res.append("distinct-services-used")
    return res
