"""Monitors attached to the real code from the harness (nothing is edited in /repo).

* NamedItemList class invariant (icontract) -- C16, piggy-backs on every other workload
* sys.monitoring reach set -- which functions of the anchor files a workload entered
* warnings recorder
"""
from __future__ import annotations

import keyword
import os
import re
import sys
import warnings
from collections import Counter
from typing import Any, Callable, Dict, Iterable, List, Optional, Set, Tuple

COUNTS: Counter = Counter()


class NilInvariantBroken(Exception):
    pass


_LIST_ATTRS = None


def nil_public_view_problem(nil: Any) -> Optional[Tuple[str, str]]:
    """Return None if the list view and the name view of `nil` agree, else (clause, text).

    Only public API is used: iteration, keys(), values(), items(), nil[name], getattr.
    """
    global _LIST_ATTRS
    cls = type(nil)
    if _LIST_ATTRS is None:
        _LIST_ATTRS = set(dir(list))
    items = list(nil)
    keys = list(nil.keys())
    values = list(nil.values())
    pairs = list(nil.items())
    if len(nil) != len(items):
        return ("len-mismatch", f"len()={len(nil)} but iteration yields {len(items)}")
    if len(keys) != len(values) or [k for k, _ in pairs] != keys:
        return ("views-disagree", "keys()/values()/items() disagree with each other")
    if len(set(keys)) != len(keys):
        return ("duplicate-name", f"keys are not unique: {keys}")
    ids_list = Counter(id(x) for x in items)
    ids_vals = Counter(id(x) for x in values)
    if ids_list != ids_vals:
        extra = [k for k, v in pairs if ids_vals[id(v)] > ids_list.get(id(v), 0)]
        if extra:
            return ("name-without-item", f"names {extra} refer to items that are not in the list")
        missing = [getattr(x, "short_name", "?") for x in items
                   if ids_list[id(x)] > ids_vals.get(id(x), 0)]
        return ("item-without-name", f"items {missing} are in the list but have no name")
    for k, v in pairs:
        sn = getattr(v, "short_name", None)
        if not isinstance(sn, str):
            continue
        base = "_" + sn if (sn[:1].isdigit() or keyword.iskeyword(sn)) else sn
        if k != base:
            rest = k[len(base):] if k.startswith(base) else None
            ok = rest is not None and (re.fullmatch(r"_[0-9]+", rest) is not None or
                                       (base.endswith("_") and re.fullmatch(r"[0-9]+", rest)))
            if not ok:
                return ("bad-name", f"item {sn!r} is registered under the name {k!r}")
        if not k.isidentifier() or keyword.iskeyword(k):
            # short names are [a-zA-Z0-9_]+, so the derived key must be identifier safe
            if re.fullmatch(r"[A-Za-z0-9_]+", sn):
                return ("unsafe-name", f"name {k!r} is not a usable identifier")
        if k in _LIST_ATTRS or k in cls.__dict__ or any(k in c.__dict__ for c in cls.__mro__[:-1]):
            return ("shadows-method", f"name {k!r} collides with an attribute of the list class")
        try:
            by_key = nil[k]
            by_attr = getattr(nil, k)
        except Exception as e:  # noqa
            return ("name-not-reachable", f"name {k!r}: {type(e).__name__}")
        if by_key is not v or by_attr is not v:
            return ("name-resolves-elsewhere",
                    f"nil[{k!r}] / getattr do not return the item listed under that name")
    return None


def _nil_invariant(self: Any) -> bool:
    COUNTS["nil_invariant_evals"] += 1
    try:
        d = object.__getattribute__(self, "__dict__")
        if "_item_dict" not in d:
            return True  # object under construction (deepcopy / unpickle)
    except Exception:
        return True
    prob = nil_public_view_problem(self)
    if prob is not None:
        COUNTS["nil_invariant_failures"] += 1
        FAILURES.append(prob)
        if RAISE_ON_NIL:
            raise NilInvariantBroken(f"{prob[0]}: {prob[1]}")
    return True


FAILURES: List[Tuple[str, str]] = []
RAISE_ON_NIL = False
_NIL_INSTALLED = False


def install_nil_invariant(raise_on_failure: bool = False) -> bool:
    """Attach the invariant to odxtools' NamedItemList base class. Returns True if attached."""
    global _NIL_INSTALLED, RAISE_ON_NIL
    RAISE_ON_NIL = raise_on_failure
    if _NIL_INSTALLED:
        return True
    try:
        import icontract
        from odxtools import nameditemlist as m
    except Exception:
        return False
    target = getattr(m, "ItemAttributeList", None) or getattr(m, "NamedItemList", None)
    if target is None:
        return False
    try:
        icontract.invariant(_nil_invariant, error=NilInvariantBroken)(target)
    except Exception:
        return False
    _NIL_INSTALLED = True
    return True


# ---------------------------------------------------------------------------
# reach set via sys.monitoring


class Reach:
    """Records which functions of the given files were entered (PY_START + DISABLE)."""

    def __init__(self, file_substrings: Iterable[str]):
        self.subs = tuple(file_substrings)
        self.hit: Set[Tuple[str, str]] = set()
        self.tool = None

    def __enter__(self) -> "Reach":
        mon = getattr(sys, "monitoring", None)
        if mon is None:
            return self
        for tool in (3, 4, 2, 1):
            try:
                mon.use_tool_id(tool, "verif-reach")
                self.tool = tool
                break
            except ValueError:
                continue
        if self.tool is None:
            return self

        def cb(code: Any, offset: int) -> Any:
            fn = code.co_filename
            if any(s in fn for s in self.subs):
                self.hit.add((os.path.basename(fn), code.co_qualname))
            return mon.DISABLE

        mon.register_callback(self.tool, mon.events.PY_START, cb)
        mon.set_events(self.tool, mon.events.PY_START)
        return self

    def __exit__(self, *a: Any) -> None:
        mon = getattr(sys, "monitoring", None)
        if mon is None or self.tool is None:
            return
        mon.set_events(self.tool, 0)
        mon.register_callback(self.tool, mon.events.PY_START, None)
        mon.free_tool_id(self.tool)
        try:
            mon.restart_events()
        except Exception:
            pass

    def functions(self) -> List[str]:
        return sorted(f"{f}:{q}" for f, q in self.hit)


class StepCounter:
    """Counts PY_START events (function entries) – a logical step measure for bounded progress."""

    def __init__(self) -> None:
        self.n = 0
        self.tool = None

    def __enter__(self) -> "StepCounter":
        mon = getattr(sys, "monitoring", None)
        if mon is None:
            return self
        for tool in (5, 4, 3):
            try:
                mon.use_tool_id(tool, "verif-steps")
                self.tool = tool
                break
            except ValueError:
                continue
        if self.tool is None:
            return self

        def cb(code: Any, offset: int) -> Any:
            self.n += 1

        mon.register_callback(self.tool, mon.events.PY_START, cb)
        mon.set_events(self.tool, mon.events.PY_START)
        return self

    def __exit__(self, *a: Any) -> None:
        mon = getattr(sys, "monitoring", None)
        if mon is None or self.tool is None:
            return
        mon.set_events(self.tool, 0)
        mon.register_callback(self.tool, mon.events.PY_START, None)
        mon.free_tool_id(self.tool)


class Warnings:
    """Records warnings of the given category name raised inside the block."""

    def __init__(self) -> None:
        self._cm = warnings.catch_warnings(record=True)
        self.log: List[Any] = []

    def __enter__(self) -> "Warnings":
        self.log = self._cm.__enter__()
        warnings.simplefilter("always")
        return self

    def __exit__(self, *a: Any) -> None:
        self._cm.__exit__(*a)

    def of(self, category_name: str) -> List[str]:
        return [str(w.message) for w in self.log
                if any(c.__name__ == category_name for c in type(w.message).__mro__)]
