"""The snoop tool's telegram handler as a caller of the decoder (C05: callers catch the decode
error only; C06: a response is found through the request that triggered it).

Events: calls of odxtools.cli.snoop.handle_telegram(can id, payload) with tester and ECU
telegrams in a stream (valid PDUs, mutations, random bytes), what it prints, whether it raises.
Oracle: a shadow of the handler's documented state (the last tester telegram that decoded) kept
with the public API: DiagLayer.decode / decode_response called with the same arguments decide
what the handler has to print (the request / responses it names, 'Tester:' / 'unrecognized
response' otherwise); it never raises.
"""
from __future__ import annotations

import contextlib
import io
import random
import re
import warnings
from typing import Any, Dict, List, Optional, Tuple

from . import codecrun, common

RX, TX = 0x7B0, 0x7B8
_RESP_LINE = re.compile(r"^ (positive|negative|unknown) response")


def expected_lines(layer: Any, state: Dict[str, Any], can_id: int, payload: bytes) -> Tuple[str, List[str]]:
    """-> (kind, names that have to appear in this order in the output)"""
    from odxtools.exceptions import DecodeError
    if can_id == TX:
        if len(payload) >= 3 and payload[0] == 0x7F and payload[2] == 0x78:
            return "pending", []
        msgs = None
        if state["last"] is not None:
            try:
                msgs = layer.decode_response(payload, state["last"])
            except DecodeError:
                msgs = None
        if msgs:
            return "response", [m.coding_object.short_name for m in msgs]
        return "unrecognized", []
    try:
        m = layer.decode(payload)[0]
        state["last"] = payload
        return "request", [m.coding_object.short_name]
    except DecodeError:
        state["last"] = None
        return "tester", []


def drive(col: common.Collector, layer: Any, stream: List[Tuple[int, bytes]], label: str,
          detail: Dict[str, Any]) -> None:
    import odxtools.cli.snoop as snoop
    snoop.odx_diag_layer = layer
    snoop.ecu_rx_id, snoop.ecu_tx_id = RX, TX
    snoop.last_request = None
    state: Dict[str, Any] = {"last": None}
    history: List[Tuple[int, bytes]] = []
    for can_id, payload in stream:
        history.append((can_id, payload))
        buf = io.StringIO()
        with contextlib.redirect_stdout(buf):
            o = codecrun.call(snoop.handle_telegram, can_id, payload)
        out = buf.getvalue()
        col.ev()
        col.count("snoop-telegrams")

        def bad(what: str, text: str) -> None:
            col.violation(("snoop-" + what, label),
                          dict(detail, history=[(i, p) for i, p in history[-6:]], output=out[:400],
                               problem=text))

        if not o.ok:
            bad("handler-raises", f"{o.exc_type}: {o.exc}")
            # the shadow cannot follow a handler that died half way: resynchronise
            state["last"] = None
            snoop.last_request = None
            continue
        try:
            with warnings.catch_warnings():
                warnings.simplefilter("ignore")
                kind, names = expected_lines(layer, state, can_id, payload)
        except Exception as e:  # the API itself misbehaves: C05's other legs report that
            col.count("snoop-api-raised-foreign")
            state["last"] = None
            snoop.last_request = None
            continue
        col.nontrivial(("snoop", label, kind, len(names) > 1))
        col.count("snoop:" + kind)
        first = out.splitlines()[0] if out else ""
        if kind == "pending":
            if "response pending" not in out:
                bad("wrong-output", "response-pending telegram not reported as such")
        elif kind == "request":
            if not first.startswith("request " + names[0] + ":"):
                bad("wrong-output", f"tester telegram decodes as request {names[0]} through the API")
        elif kind == "tester":
            if not first.startswith("Tester:"):
                bad("wrong-output", "tester telegram that the layer cannot decode is reported as decoded")
        elif kind == "unrecognized":
            if "unrecognized response" not in out:
                bad("wrong-output", "ECU telegram without interpretation is reported as decoded")
        else:
            found = [ln for ln in out.splitlines() if _RESP_LINE.match(ln)]
            got = [ln.split()[-1].rstrip(":") for ln in found]
            if got != names:
                bad("wrong-output", f"API decodes the response as {names}, the tool prints {got}")


def somersault_stream(layer: Any, r: random.Random, n: int) -> List[Tuple[int, bytes]]:
    """tester/ECU telegrams built from the constant prefixes of the layer's services"""
    pairs: List[Tuple[bytes, List[bytes]]] = []
    for svc in layer.services:
        if svc.request is None:
            continue
        try:
            rq = bytes(svc.request.coded_const_prefix())
        except Exception:
            continue
        rs = []
        for resp in list(svc.positive_responses) + list(svc.negative_responses):
            try:
                rs.append(bytes(resp.coded_const_prefix(request_prefix=rq)))
            except Exception:
                pass
        pairs.append((rq, rs))
    out: List[Tuple[int, bytes]] = []

    def tail(k: int) -> bytes:
        return bytes(r.getrandbits(8) for _ in range(r.randrange(0, k)))

    while len(out) < n:
        rq, rs = r.choice(pairs)
        x = r.random()
        if x < 0.55:
            out.append((RX, rq + tail(6)))
        elif x < 0.65:
            out.append((RX, tail(8)))
        else:
            out.append((RX, rq))
        for _ in range(r.randrange(0, 3)):
            y = r.random()
            if y < 0.5 and rs:
                out.append((TX, r.choice(rs) + tail(6)))
            elif y < 0.6:
                out.append((TX, bytes([0x7F, rq[0] if rq else 0, 0x78])))
            elif y < 0.75:
                out.append((TX, bytes([0x7F, rq[0] if rq else 0, r.choice([0x10, 0x11, 0x22, 0x31])])))
            elif y < 0.85 and pairs:
                other = r.choice(pairs)[1]
                out.append((TX, (r.choice(other) if other else b"") + tail(4)))
            else:
                out.append((TX, tail(8)))
    return out
