"""Driver:  python -m vf.main <Cxx> [--tier quick|thorough] [--replay file]"""
from __future__ import annotations

import argparse
import importlib
import json
import os
import sys
import time
import traceback

from . import common


def main() -> int:
    ap = argparse.ArgumentParser()
    ap.add_argument("prop")
    ap.add_argument("--tier", default=os.environ.get("VERIF_TIER", "quick"),
                    choices=["quick", "thorough"])
    ap.add_argument("--replay", default=None)
    args = ap.parse_args()
    prop = args.prop.upper()

    common.ensure_deps()
    common.setup_paths()
    os.environ["VERIF_TIER"] = args.tier
    t0 = time.time()
    col = common.Collector()
    try:
        mod = importlib.import_module(f"vf.checks.{prop.lower()}")
    except ModuleNotFoundError:
        print(f"INCONCLUSIVE property={prop} reason=no check module")
        return common.EXIT_INCONCLUSIVE

    if args.replay:
        with open(args.replay) as f:
            rep = json.load(f)
        for w in rep.get("witnesses", []):
            try:
                mod.replay(common.unjson(w), col)
            except Exception:
                col.fail_inconclusive("replay crashed: " + traceback.format_exc()[-800:])
        col.distinct |= {"replay-a", "replay-b"}
        col.evaluations = max(col.evaluations, 1)
        return common.finish(prop, args.tier, mod.LEVEL, col, t0, mod.RULE,
                             write_evidence=False)

    import glob
    for old in glob.glob(os.path.join(common.replay_directory(), f"{prop}-*.json")):
        os.unlink(old)  # witnesses of earlier runs of this property
    try:
        mod.run(args.tier, col)
    except Exception:
        col.fail_inconclusive("harness crashed: " + traceback.format_exc()[-1500:])
    return common.finish(
        prop, args.tier, mod.LEVEL, col, t0, mod.RULE,
        min_evaluations=mod.MIN_EVALS.get(args.tier, 1),
        assumptions=getattr(mod, "ASSUMPTIONS", []),
        exhaustive=bool(col.notes.pop("exhaustive", False)))


if __name__ == "__main__":
    sys.exit(main())
