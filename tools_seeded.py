#!/usr/bin/env python3
"""Validate and evaluate seeded property-breaking changes.

  tools_seeded.py validate <dir>      dir holds patch.diff, demo.py, meta.json
  tools_seeded.py run <seeded-id> [check ids...]   run checks against /verif/seeded/<id>
  tools_seeded.py all                 run every seeded change against its property's check

A seeded change is applied to a scratch COPY of /repo (never to /repo itself); checks run with
VERIF_REPO=<copy> and VERIF_NO_EVIDENCE=1.
"""
import json
import re
import os
import shutil
import subprocess
import sys
import tempfile

VERIF = os.path.dirname(os.path.abspath(__file__))
PY = "/venv/bin/python"


def _run(cmd, timeout, **kw):
    """subprocess.run with a hard timeout that also kills the worker processes of the child."""
    import signal
    p = subprocess.Popen(cmd, stdout=subprocess.PIPE, stderr=subprocess.PIPE, text=True,
                         start_new_session=True, **kw)
    try:
        out, err = p.communicate(timeout=timeout)
        return subprocess.CompletedProcess(cmd, p.returncode, out, err)
    except subprocess.TimeoutExpired:
        os.killpg(p.pid, signal.SIGKILL)
        out, err = p.communicate()
        return subprocess.CompletedProcess(cmd, 124, out, (err or "") + f"\nTIMEOUT after {timeout}s")


def scratch(patch):
    d = tempfile.mkdtemp(prefix="seeded-")
    for sub in ("odxtools", "examples", "tests", "pyproject.toml"):
        src = os.path.join("/repo", sub)
        if os.path.isdir(src):
            shutil.copytree(src, os.path.join(d, sub), ignore=shutil.ignore_patterns("__pycache__"))
        elif os.path.exists(src):
            shutil.copy(src, d)
    if patch:
        r = subprocess.run(["patch", "-p1", "-s", "-i", patch], cwd=d, capture_output=True, text=True)
        if r.returncode != 0:
            shutil.rmtree(d)
            raise SystemExit(f"patch does not apply: {r.stdout}{r.stderr}")
    return d


def run_tests(d):
    env = dict(os.environ, PYTHONPATH=d)
    r = _run([PY, "-m", "pytest", "-q", "-p", "no:cacheprovider", "-x", "tests"], 900, cwd=d, env=env)
    tail = [l for l in r.stdout.splitlines() if "passed" in l or "failed" in l]
    return r.returncode, (tail[-1] if tail else r.stdout[-200:])


def run_demo(d, demo):
    # demonstrations were written inside <worktree>/_seed/<variant>/ and may refer to the
    # worktree's examples/ relatively: reproduce that layout inside the scratch copy
    place = os.path.join(d, "_seed", "x")
    os.makedirs(place, exist_ok=True)
    shutil.copy(demo, os.path.join(place, "demo.py"))
    demo = os.path.join(place, "demo.py")
    env = dict(os.environ, PYTHONPATH=d)
    r = _run([PY, demo], 300, cwd=os.path.dirname(demo), env=env)
    return r.returncode, (r.stdout + r.stderr)[-400:]


def run_check(d, cid, tier="quick"):
    env = dict(os.environ, VERIF_REPO=d, VERIF_NO_EVIDENCE="1",
               VERIF_REPLAY_DIR=os.path.join(d, "_replay"))
    r = _run([os.path.join(VERIF, "check"), cid, "--tier", tier], 1500, cwd=VERIF, env=env)
    sigs = [l.strip() for l in r.stderr.splitlines() if l.strip().startswith("signature=")]
    last = [l for l in r.stdout.splitlines() if l.startswith(cid + ":") or l.startswith("INCONCLUSIVE")]
    return r.returncode, sigs, (last[-1] if last else r.stdout[-300:])


def validate(sd):
    sd = os.path.abspath(sd)
    patch, demo = os.path.join(sd, "patch.diff"), os.path.join(sd, "demo.py")
    res = {}
    clean = scratch(None)
    try:
        res["demo_clean"] = run_demo(clean, demo)
    finally:
        shutil.rmtree(clean)
    d = scratch(patch)
    try:
        res["tests_patched"] = run_tests(d)
        res["demo_patched"] = run_demo(d, demo)
    finally:
        shutil.rmtree(d)
    ok = res["demo_clean"][0] == 0 and res["tests_patched"][0] == 0 and res["demo_patched"][0] != 0
    res["valid"] = ok
    return res


def run(sid, checks=None, tier="quick"):
    sd = os.path.join(VERIF, "seeded", sid)
    meta = json.load(open(os.path.join(sd, "meta.json")))
    checks = checks or [meta["property"]]
    d = scratch(os.path.join(sd, "patch.diff"))
    out = {}
    try:
        for c in checks:
            out[c] = run_check(d, c, tier)
    finally:
        shutil.rmtree(d)
    return out


if __name__ == "__main__":
    cmd = sys.argv[1]
    if cmd == "validate":
        print(json.dumps(validate(sys.argv[2]), indent=1))
    elif cmd == "run":
        tier = os.environ.get("SEEDED_TIER", "quick")
        for c, (rc, sigs, last) in run(sys.argv[2], sys.argv[3:] or None, tier).items():
            print(f"{sys.argv[2]} {c}: exit={rc} {last}")
            for s in sigs[:8]:
                print("   ", s[:200])
    elif cmd == "table":
        # rewrite the table of SEEDED.md from the meta.json files (the text above it is kept)
        path = os.path.join(VERIF, "SEEDED.md")
        head = []
        for ln in open(path):
            if ln.startswith("| id |"):
                break
            head.append(ln)
        rows = ["| id | property | change | first run | final | strengthening after a miss |\n",
                "|---|---|---|---|---|---|\n"]
        base = os.path.join(VERIF, "seeded")

        def order(sid):
            m = re.match(r"C(\d+)-(?:r(\d+))?([ab])", sid)
            return (int(m.group(1)), int(m.group(2) or 1), m.group(3))

        ids = [x for x in os.listdir(base) if os.path.exists(os.path.join(base, x, "meta.json"))]
        for sid in sorted(ids, key=order):
            meta = json.load(open(os.path.join(base, sid, "meta.json")))
            ev = meta.get("evaluation") or {}
            rows.append("| %s | %s | %s | %s | %s | %s |\n" % (
                sid, meta["property"], meta["summary"][:110].replace("|", "/").replace("\n", " "),
                ev.get("first_run", "?"), ev.get("final", "?"),
                (ev.get("strengthening") or "").replace("|", "/")))
        open(path, "w").write("".join(head) + "".join(rows))
        print(len(rows) - 2, "rows")
    elif cmd == "all":
        base = os.path.join(VERIF, "seeded")
        for sid in sorted(os.listdir(base)):
            if not os.path.exists(os.path.join(base, sid, "meta.json")):
                continue
            for c, (rc, sigs, last) in run(sid).items():
                print(f"{sid} {c}: {'CAUGHT' if rc == 1 else 'MISSED' if rc == 0 else 'INCONCLUSIVE'} "
                      f"({len(sigs)} signatures) {last[:120]}")
