#!/usr/bin/env python3
"""Maintains MANIFEST.json: `tools_manifest.py add Cxx category "level text" "level note" "technique" "design ref"`."""
import json, sys
M = "/verif/MANIFEST.json"
man = json.load(open(M))
cmd = sys.argv[1]
if cmd == "add":
    pid, cat, text, note, tech, ref = sys.argv[2:8]
    man["checks"] = [c for c in man["checks"] if c["property_id"] != pid]
    man["checks"].append({
        "property_id": pid,
        "quick_cmd": f"./check {pid} --tier quick",
        "thorough_cmd": f"./check {pid} --tier thorough",
        "evidence_file": f"/verif/evidence/{pid}.json",
        "replay_cmd_template": f"./check {pid} --replay {{path}}",
        "engine": "vf",
        "level_claimed": {"category": cat, "text": text, "design_ref": ref},
        "level_note": note,
        "technique": tech,
    })
    man["checks"].sort(key=lambda c: c["property_id"])
    man["not_applicable"] = [n for n in man.get("not_applicable", []) if n["property_id"] != pid]
    for e in man["engines"]:
        e["serves_properties"] = [c["property_id"] for c in man["checks"]]
json.dump(man, open(M, "w"), indent=1)
print("checks:", [c["property_id"] for c in man["checks"]])
